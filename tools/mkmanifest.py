#!/usr/bin/env python3
"""Writes MANIFEST.json from the table below (kept in one place so it is always schema-valid)."""
import json, os
ROOT = os.path.dirname(os.path.dirname(os.path.abspath(__file__)))
props = [json.loads(l) for l in open(os.path.join(ROOT, "properties.jsonl"))]
CLAIMED = {
 "C11": dict(
   text="Proof (Lean 4): C11_map proves, for every valid configuration of 0002/0003/0004/0006/0007, every digest of the right length and every Unicode id, that the model of map_object_id returns exactly the path (or refusal) the extension document prescribes; C11_cfg proves validate() accepts exactly the documented configurations. The model is tied to layout.rs by a differential run through StorageLayout::new/map_object_id; the independent spec functions are also evaluated against the implementation as oracle. Partial for 0006/0007 with characters whose lower-casing is not 1:1/length-preserving (known finding C11-K1).",
   note="Trusted: Lean kernel + propext/Classical.choice/Quot.sound; hand-written model validated by correspondence (not verified code); digest of the id via Python hashlib; Unicode case mapping as model parameter (table generated from Python, validated against Rust by the run); serde_json config parsing exercised only.",
   technique="Lean 4 theorem (model = spec) + differential correspondence model/implementation", design="§5-C11"),
 "C14": dict(
   text="Proof (Lean 4): C14_next_* prove that VersionNum::next yields exactly number+1 with the same width, never panics for any width, refuses past 10^(w-1)-1 resp. u32::MAX; C14_stale_refused / C14_failed_commit_main_unchanged prove that a commit whose staged head is not main head+1 fails and leaves the main repository unchanged (for every repository state, so for every interleaving of clients sharing the storage root); C14_commit_next / C14_earlier_versions_kept prove a successful commit installs exactly the next version and keeps all earlier ones. Tied to the code by a differential history run (two clients with separate staging roots); the implementation-level oracle watches head numbers, padding and the main tree around every commit. Residue: the call-granularity race of two simultaneous installs (rename atomicity) is assumed, not modelled.",
   note="Trusted: Lean kernel + 3 standard axioms; hand-written model of repo.rs/fs.rs commit path validated by correspondence; POSIX rename semantics; Python oracles.",
   technique="Lean 4 theorems over the commit state machine + differential history correspondence", design="§5-C14"),
 "C08": dict(
   text="Proof (Lean 4): C08_staging_preserves_main (every staging operation, whatever its arguments or outcome, leaves Repo.main unchanged), C08_other_objects (an operation on one id never changes the committed or staged form of another id), C08_reset_all_traceless, C08_purge_exact, C08_reads_ignore_staging — all over the step function of the repository state machine. Tied by differential history runs with three objects; the oracle snapshots every byte of the storage root and of the other objects' staged directories around each operation and compares read answers before/after staging.",
   note="Trusted: Lean kernel + 3 standard axioms; model abstracts the directory tree to per-object inventory+content files (the byte-level claim about the tree is checked by the oracle, not proved); Python oracles.",
   technique="Lean 4 frame theorems over the state machine + differential history correspondence", design="§5-C08"),
 "C09": dict(
   text="Proof (Lean 4), partial: C09_add_keeps_no_clash / C09_file_is_not_dir (a logical path is never file and directory), C09_stage_file_view / C09_stage_file_refused (cp of one accepted file = view[lp:=digest], refused exactly on a clash), C09_remove_absent (rm semantics). The history-wide invariant 'every staged path is readable' is decided by the correspondence + oracle (cat -S of every staged path after every operation), not yet by a theorem. Five genuine defects found this way were repaired (known-findings.json).",
   note="Trusted: Lean kernel + 3 standard axioms; hand-written model validated by correspondence; digest = content identification; Python oracles.",
   technique="Lean 4 theorems on the staging primitives + differential history correspondence", design="§5-C09"),
 "C02": dict(
   text="Proof (Lean 4), partial: C02_staging_never_changes_reads and C02_other_objects_never_change_reads prove the 'forever' half for every staging operation and for every operation on another object; that a commit keeps the reads of earlier versions is proved at inventory level (C14_earlier_versions_kept) and checked byte-wise by the oracle, which re-reads every recorded (object, version, path) after every later operation.",
   note="Trusted: as C09.", technique="Lean 4 frame theorems + differential history correspondence with re-read oracle", design="§5-C02"),
 "C01": dict(
   text="Proof (Lean 4), partial: C01_no_orphans / C01_orphan_removal_keeps_listed / C01_dedup_keeps_* prove the commit-preparation facts (no stray content file survives, dedup only drops entries of the new version the choice does not keep). Validity of every reachable repository is decided by the correspondence plus an independent OCFL validator (vlib/ocflcheck.py, written from the spec text) run on the real tree after every operation, including the strict clauses and the one-new-file-per-digest clause.",
   note="Trusted: as C09; vlib/ocflcheck.py is my reading of OCFL 1.0/1.1 (cross-checked against the official fixtures: all valid/warn fixtures pass, 48/56 error fixtures flagged).",
   technique="Lean 4 theorems on commit preparation + independent validator on every reachable tree", design="§5-C01"),
 "C18": dict(
   text="Proof (Lean 4): over the model of Version::diff (three loops with deletes/seen/renames maps, as in the code) C18_modified_iff and C18_added_iff prove that Modified/Added are reported exactly for the paths the set-based reading of the statement prescribes, for all pairs of states; C18_self_empty, C18_show_is_diff_prev, C18_first_all_added. Deleted/Renamed, log, file log and last-update attribution are tied by the differential run (diff/log/flog/ls -l of model vs implementation on every commit) and judged by a set-based Python specification over all ordered version pairs and all paths.",
   note="Trusted: Lean kernel + 3 standard axioms; hand-written model validated by correspondence; Python set specification.",
   technique="Lean 4 fold-invariant proofs (model = set specification) + differential history correspondence", design="§5-C18"),
 "C10": dict(
   text="Proof (Lean 4): C10_roundtrip — for every Unicode string s, reading (with a conforming JSON string reader, incl. \\uXXXX and surrogate pairs) what serde_json's string writer produces for s yields exactly s; C10_token_roundtrip, C10_escape_injective, C10_body_has_no_raw_control. The writer/reader models are tied to serde_json by a differential run over hostile strings and arbitrary token bodies; histories with hostile ids, file names, content directories, users, addresses and messages are run through the repository model, and the oracle re-reads every staged inventory with Python's json and compares with what was accepted and with what rocfl reads back. Three genuine defects found and repaired (known-findings.json).",
   note="Trusted: Lean kernel + 3 standard axioms; JSON structure outside string tokens is serde_json's (exercised, not modelled); create_object trims ids — the accepted id is the trimmed one; Python json as the 'conforming parser'.",
   technique="Lean 4 round-trip theorem over all strings + differential correspondence (writer, reader, histories)", design="§5-C10"),
 "C19": dict(
   text="Proof (Lean 4): C19_id_prefilter — for every non-empty Unicode id and both serialisations rocfl writes, the scan's id pre-filter (pattern search in inventory.json + JSON decoding, as repaired) extracts exactly the object's id, so exact lookups and glob filters see the real id; C19_staging_never_lists, C19_purged_not_found, C19_committed_is_found over the repository state machine. The directory walk itself (object root = directory holding a 0=ocfl_object_* file; no descent into object roots) is tied by the differential run only: histories with up to five objects, hostile ids, all layouts and no layout, where `ls`, `ls <glob>`, `ls -S` and opening every id are compared with the model and judged by an oracle that tracks the set of live ids. Known finding C19-K1 (object roots below a directory named 'extensions' are invisible).",
   note="Trusted: Lean kernel + 3 standard axioms; globset is modelled for literals, * and ? (byte-wise, as globset matches); regex/grep crates exercised, modelled by Scan.lean; Python oracle.",
   technique="Lean 4 theorem on the id pre-filter + frame theorems + differential history correspondence", design="§5-C19"),
 "C03": dict(
   text="Proof (Lean 4): over the script model of the install phase (write_new_version incl. rollback and spec-upgrade tail, write_new_object) C03_install_avoids_committed_version, C03_install_avoids_other_objects and C03_rollback_avoids_committed_version prove that no call touches anything inside another version directory of the object or inside another object's root; install_touched gives the exact set of touched paths (new version dir, root inventory, sidecar, declarations). The script model is compared call by call with the strace of every successful commit; every mutating system call of every operation (also failing ones) is judged by the `avoids` monitor (Lean, on the observed trace) and by an independent Python check plus byte snapshots of all committed version directories. Failure/kill points of the commit are enumerated by C04/C05.",
   note="Trusted: Lean kernel + 3 standard axioms; script model validated by trace comparison; strace and the trace parser; staging-phase call order not modelled (judged by monitors on observed traces).",
   technique="Lean 4 theorems on install scripts + trace monitors on strace of the real binary", design="§5-C03"),
 "C12": dict(
   text="Proof (Lean 4): C12_safe_root_is_inside (a mapped object root accepted by the guard resolves strictly below the storage root, for every root and every string), C12_new_object_confined (the install of a new object touches only the staged directory, the target and its missing parents, all inside the storage root), C12_not_inside_other_object, plus the witnesses C12_unguarded_escapes / C12_guard_refuses for the repaired defect. The guard decision of the model is compared with `rocfl commit` on hostile ids (flat-direct layout) and hostile --object-root values; every mutating system call of every operation is judged against {storage root, staging root}; existing objects must stay valid. Two genuine defects repaired (writes/purge outside the root, purge of a prefix directory).",
   note="Trusted: Lean kernel + 3 standard axioms; lexical path resolution (no symlinks inside the storage root); strace + parser; vlib/ocflcheck.py.",
   technique="Lean 4 theorems on path guards and install script + trace monitor on strace of the real binary", design="§5-C12"),
 "C13": dict(
   text="Proof (Lean 4), partial: over the lock-file protocol with an interleaving semantics for any number of processes and any schedule: C13_exclusion (no two processes ever hold one object's lock), C13_refused_changes_nothing, C13_released (no lock file once nobody is inside an operation), C13_holder_blocks, C13_different_objects_never_refused. Coverage (every object mutation of every locked operation lies between lock creation and removal; lock gone afterwards, also on failures) is decided on the strace of every operation; the same operations are re-run with the lock pre-held (must fail, change nothing) and as races of three processes. Residue: O_EXCL atomicity and Drop-on-unwind are assumed; serialisability across objects sharing an empty ancestor directory is only raced, not proved.",
   note="Trusted: Lean kernel + 3 standard axioms; kernel O_EXCL semantics; strace + parser.",
   technique="Lean 4 invariant proof over all interleavings of the lock protocol + trace oracle + races", design="§5-C13"),
 "C04": dict(
   text="Proof (Lean 4): over the install phase of write_new_version as a fault-aware state machine (rename of the version directory, in-place copy of root inventory and sidecar, declaration swap on upgrade, and the rollback as repaired) C04_atomic proves that for every step failing once the object is exactly the old state and an error is reported; C04_no_fault, C04_ok_only_if_new, C04_old_ne_new. The quantifier is the finite table of steps, decided completely. Tied to the code by replaying real commits under strace with every mutating system call failing once (and with SIGINT as the stop request) and comparing the observed state (old/new/other, semantically) with the model's verdict; the oracle also checks validity of the new version, that success is only reported for it, and that a retry and a reset succeed afterwards. Three genuine defects repaired.",
   note="Trusted: Lean kernel + 3 standard axioms; single-fault assumption (rollback calls succeed); failing call has no effect of its own; strace injection; staging-phase faults judged by the oracle only.",
   technique="Lean 4 exhaustive proof over the commit step table + strace single-fault enumeration on the real binary", design="§5-C04"),
 "C05": dict(
   text="Proof (Lean 4): C05_old_new_or_invalid — for a kill before any step of the install phase the object is the old state, the new state, or a state satisfying one of the conditions rocfl's validator reports; C05_old_new_not_flagged; C05_version_dir_moves_once (the new version directory is entirely in staging or entirely in the object). Tied to the code by SIGKILL injection before every mutating system call of real commits: previously committed version directories byte-identical, every content file of the new version in full in staging or in the object, and `rocfl validate` exits 2 whenever the state is neither old nor new.",
   note="Trusted: Lean kernel + 3 standard axioms; process-kill model (calls already made are durable and ordered; no fsync modelling); flaggedInvalid is tied to the real validator by the enumeration.",
   technique="Lean 4 exhaustive proof over the commit step table + strace kill-point enumeration on the real binary", design="§5-C05"),
 "C06": dict(
   text="Proof (Lean 4), partial: the validator is modelled as a decision table (Validator.expectedCodes: corruption kind x fixity -> codes of the checks of validate/mod.rs that answer to it). C06_every_kind_has_a_check proves that every one of the 21 corruption kinds has a non-empty set of answering checks with fixity; C06_structural_without_fixity that every structural kind has one without fixity; C06_only_content_bytes_need_fixity that exactly the three in-file content edits depend on fixity; C06_inventory_bytes / C06_sidecar_digest that any changed inventory byte or sidecar hex digit changes the comparison the validator makes, under digest injectivity. The table is tied to the code on every run: every generated corruption of an object written by the real binary is validated through the library (with and without fixity) and through the CLI, the oracle demands >=1 error and exit status 2, and the observed error codes must intersect the table's.  The validator's own code (serde visitors, listing, digesting) is exercised, not modelled.",
   note="Trusted: Lean kernel + 3 standard axioms; digest injectivity hypothesis; corrupt.py applies one uncompensated edit; sampled positions in quick, the first 2500 positions of every inventory, sidecar and content file enumerated in thorough. One recorded finding C06-K1 (content-less version directory emptied: W010 only, which is what the OCFL specification asks).",
   technique="Lean 4 decision-table theorems + differential corruption run (library verdict, CLI exit status) tied to the table", design="§5-C06"),
 "C17": dict(
   text="Proof (Lean 4), partial: for the one loop of the validator whose trip count depended on values in the input (validate_version_nums) C17_version_check_linear proves that iterations + emitted results are at most 102 per version entry for every list of version numbers; C17_version_errors_linear, C17_stops_at_u32_max; C17_gap_witness_before_fix proves (symbolically, for every n) that the unrepaired loop cost n iterations for one key v(n+1). The model is tied by comparing E010 counts on generated version-key sets. Panic-freedom and bounded time/memory of the rest of the validator are decided by a mutation run: structure-aware and raw mutants of inventories, sidecars, declarations and directory structures (symlink loops, FIFOs, files for directories), each validated in-process under catch_unwind with a wall-clock limit and RLIMIT_AS; the repository validator must carry on after a broken object.",
   note="Trusted: Lean kernel + 3 standard axioms; time and memory judged through proxies (wall clock, result count, address-space limit); serde_json's recursion limit and parsing are exercised, not modelled.",
   technique="Lean 4 cost-bound theorem for the version-number loop + guarded mutation run against the real validator", design="§5-C17"),
}
NOT_YET = "not claimed yet: model/theorems for this property are still under construction in this round (see DESIGN.md §11 order of work)"
checks = []
na = []
for p in props:
    pid = p["id"]
    if pid in CLAIMED:
        c = CLAIMED[pid]
        checks.append(dict(property_id=pid, quick_cmd="./check %s --tier quick" % pid,
                           thorough_cmd="./check %s --tier thorough" % pid,
                           evidence_file="/verif/evidence/%s.json" % pid,
                           replay_cmd_template="./check %s --replay {path}" % pid,
                           engine="lean4-model+correspondence",
                           level_claimed=dict(category="proof", text=c["text"], design_ref=c["design"]),
                           level_note=c["note"], technique=c["technique"]))
    else:
        na.append(dict(property_id=pid, reason=NOT_YET))
m = dict(version=1,
         setup_cmd="cd /verif/lean && lake build && cd /verif/harness && cargo build --offline",
         hooks=dict(guard="rocfl_verif", enable="none needed: all observation is through the public API, the on-disk tree, strace and an S3 stand-in (no source hooks)",
                    baseline_off_cmd="cd /repo && cargo nextest run --workspace --no-fail-fast --tool-config-file pb:/w/lib/nextest.toml --profile pb --test-threads 8 --offline",
                    source_commits=[], add_only=True),
         engines=[dict(name="lean", path="/verif/lean", serves_properties=sorted(CLAIMED), kind_free_text="Lean 4 model, specs, theorems, compiled line-protocol driver"),
                  dict(name="harness", path="/verif/harness", serves_properties=sorted(CLAIMED), kind_free_text="Rust crate calling rocfl's public API in-process (path dependency on /repo)"),
                  dict(name="strace", path="/verif/vlib/phys.py", serves_properties=["C03", "C04", "C05", "C12", "C13"], kind_free_text="real rocfl binary under strace: trace parser, single-fault and kill injection"),
                  dict(name="check", path="/verif/check", serves_properties=sorted(CLAIMED), kind_free_text="Python orchestrator: proof stage, axiom audit, generators, differential run, oracle, search, evidence")],
         checks=checks, not_applicable=na,
         notes="Fix commits in /repo are unguarded 'fix:' commits listed in known-findings.json; no hook commits exist.")
json.dump(m, open(os.path.join(ROOT, "MANIFEST.json"), "w"), indent=1)
print(len(checks), "claimed;", len(na), "not claimed")
