#!/usr/bin/env python3
"""Writes MANIFEST.json from the table below (kept in one place so it is always schema-valid)."""
import json, os
ROOT = os.path.dirname(os.path.dirname(os.path.abspath(__file__)))
props = [json.loads(l) for l in open(os.path.join(ROOT, "properties.jsonl"))]
CLAIMED = {
 "C11": dict(
   text="Proof (Lean 4): C11_map proves, for every valid configuration of 0002/0003/0004/0006/0007, every digest of the right length and every Unicode id, that the model of map_object_id returns exactly the path (or refusal) the extension document prescribes; C11_cfg proves validate() accepts exactly the documented configurations. The model is tied to layout.rs by a differential run through StorageLayout::new/map_object_id; the independent spec functions are also evaluated against the implementation as oracle. Partial for 0006/0007 with characters whose lower-casing is not 1:1/length-preserving (known finding C11-K1).",
   note="Trusted: Lean kernel + propext/Classical.choice/Quot.sound; hand-written model validated by correspondence (not verified code); digest of the id via Python hashlib; Unicode case mapping as model parameter (table generated from Python, validated against Rust by the run); serde_json config parsing exercised only.",
   technique="Lean 4 theorem (model = spec) + differential correspondence model/implementation", design="§5-C11"),
}
NOT_YET = "not claimed yet: model/theorems for this property are still under construction in this round (see DESIGN.md §11 order of work)"
checks = []
na = []
for p in props:
    pid = p["id"]
    if pid in CLAIMED:
        c = CLAIMED[pid]
        checks.append(dict(property_id=pid, quick_cmd="./check %s --tier quick" % pid,
                           thorough_cmd="./check %s --tier thorough" % pid,
                           evidence_file="/verif/evidence/%s.json" % pid,
                           replay_cmd_template="./check %s --replay {path}" % pid,
                           engine="lean4-model+correspondence",
                           level_claimed=dict(category="proof", text=c["text"], design_ref=c["design"]),
                           level_note=c["note"], technique=c["technique"]))
    else:
        na.append(dict(property_id=pid, reason=NOT_YET))
m = dict(version=1,
         setup_cmd="cd /verif/lean && lake build && cd /verif/harness && cargo build --offline",
         hooks=dict(guard="rocfl_verif", enable="none needed: all observation is through the public API, the on-disk tree, strace and an S3 stand-in (no source hooks)",
                    baseline_off_cmd="cd /repo && cargo nextest run --workspace --no-fail-fast --tool-config-file pb:/w/lib/nextest.toml --profile pb --test-threads 8 --offline",
                    source_commits=[], add_only=True),
         engines=[dict(name="lean", path="/verif/lean", serves_properties=sorted(CLAIMED), kind_free_text="Lean 4 model, specs, theorems, compiled line-protocol driver"),
                  dict(name="harness", path="/verif/harness", serves_properties=sorted(CLAIMED), kind_free_text="Rust crate calling rocfl's public API in-process (path dependency on /repo)"),
                  dict(name="check", path="/verif/check", serves_properties=sorted(CLAIMED), kind_free_text="Python orchestrator: proof stage, axiom audit, generators, differential run, oracle, search, evidence")],
         checks=checks, not_applicable=na,
         notes="Fix commits in /repo are unguarded 'fix:' commits listed in known-findings.json; no hook commits exist.")
json.dump(m, open(os.path.join(ROOT, "MANIFEST.json"), "w"), indent=1)
print(len(checks), "claimed;", len(na), "not claimed")
