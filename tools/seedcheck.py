#!/usr/bin/env python3
"""Confirm a seeded change delivered in /tmp/wt-<name>/_seed and run registered checks against it.
usage: seedcheck.py <name> <property> [<check ids to run> ...] [--tier quick|thorough] [--skip-verify] [--wt <worktree>]"""
import json, os, shutil, subprocess, sys, time
name, prop = sys.argv[1], sys.argv[2]
args = sys.argv[3:]
tier = "quick"
if "--tier" in args:
    tier = args[args.index("--tier") + 1]; del args[args.index("--tier"):args.index("--tier") + 2]
wt_override = None
if "--wt" in args:
    wt_override = args[args.index("--wt") + 1]; del args[args.index("--wt"):args.index("--wt") + 2]
skip = "--skip-verify" in args
args = [a for a in args if a != "--skip-verify"]
checks = args or [prop]
wt = wt_override or ("/tmp/wt-" + name)
seed = os.path.join(wt, "_seed")
if not os.path.isdir(seed):
    # the scratch worktree is gone: re-run the kept patch
    seed = "/verif/seeded/" + name
    skip = True
env = dict(os.environ, CARGO_NET_OFFLINE="true", CARGO_TARGET_DIR=wt + "/target")
meta = dict(id=name, property=prop, confirmed={}, checks={})
def sh(cmd, **kw):
    p = subprocess.run(cmd, shell=True, stdout=subprocess.PIPE, stderr=subprocess.STDOUT, **kw)
    return p.returncode, p.stdout.decode("utf-8", "replace")
if not skip:
    rc, out = sh("cd %s && cargo test --workspace --no-fail-fast --offline --no-default-features 2>&1 | grep -E '^test result|FAILED|^error'" % wt, env=env)
    res = [l for l in out.splitlines() if l.startswith("test result")]
    meta["confirmed"]["suite"] = "all passed" if res and all(" 0 failed" in l for l in res) and "FAILED" not in out and "error" not in out else "NOT CLEAN"
    meta["confirmed"]["suite_lines"] = res
    print("suite:", meta["confirmed"]["suite"], len(res))
    rc, out = sh("cd %s && bash _seed/demo.sh 2>&1 | tail -15" % wt, env=dict(os.environ, HOME="/tmp/seed-home"))
    meta["confirmed"]["demo_exit"] = rc
    meta["confirmed"]["demo_tail"] = out[-1200:]
    print("demo exit", rc); print(out[-600:])
# the patch must apply to /repo as it is now
rc, out = sh("git -C /repo status --short | head -3")
assert out.strip() == "", "repo not clean: " + out
rc, out = sh("git -C /repo apply %s/patch.diff" % seed)
if rc != 0:
    print("patch does not apply:", out); sys.exit(2)
try:
    for c in checks:
        t0 = time.time()
        rc, out = sh("cd /verif && ./check %s --tier %s 2>&1 | tail -6" % (c, tier))
        lines = [l for l in out.splitlines() if l.startswith(("VIOLATION", "[C", "KNOWN"))]
        caught = any(l.startswith("VIOLATION") for l in lines)
        meta["checks"]["%s:%s" % (c, tier)] = dict(caught=caught, lines=lines[:6], wall_s=round(time.time() - t0, 1))
        print(c, tier, "CAUGHT" if caught else "missed", lines[-1:] )
        # keep the first replay as evidence
        for l in lines:
            if l.startswith("VIOLATION"):
                rp = l.split("replay=")[1].split(" ")[0]
                os.makedirs("/verif/seeded/%s" % name, exist_ok=True)
                if os.path.exists(rp):
                    shutil.copy(rp, "/verif/seeded/%s/replay-%s-%s.json" % (name, c, tier))
                break
finally:
    sh("git -C /repo checkout -- . && git -C /repo status --short")
dst = "/verif/seeded/%s" % name
os.makedirs(dst, exist_ok=True)
for f in ("patch.diff", "demo.sh", "demo.out", "README.md"):
    if os.path.exists(os.path.join(seed, f)) and os.path.abspath(seed) != os.path.abspath(dst):
        shutil.copy(os.path.join(seed, f), dst)
mp = os.path.join(dst, "meta.json")
old = json.load(open(mp)) if os.path.exists(mp) else {}
old.update({k: v for k, v in meta.items() if k != "checks" and (v or k not in old)})
old.setdefault("checks", {}).update(meta["checks"])
json.dump(old, open(mp, "w"), indent=1)
print("->", dst)
